import GlmVerif.Hand.C06
import Std.Data.HashSet
/-!
Native driver of property C06 (see checks/README.md).

  drv_c06 lines <file>            read the harness's lines (`diff/C06.cpp lines …`), evaluate the model
                                  (at hardware `Float32` AND at the soft-float `SF` the theorems are about)
                                  and the executable specification on every line; print
                                    MISMATCH  <line> | model <…>     model ≠ glm
                                    SOFTDIFF  <line> | …             soft-float model ≠ hardware-float model
                                    SPECVIOL  <line> | <reason>      glm's result violates the specification
                                  and a final `SUMMARY …` line
  drv_c06 sweep <op> <lo> <hi>    blocks of 2^20 float bit patterns through a scalar pack: `B <op> <blk> <hash>`
                                  (same fold as the harness) and `V <op> <x> <code> <reason>` for spec violations
                                  of the model's result (equal to glm's when the hashes agree)
-/
open Glm.Hand.C06

instance : Inhabited SF := ⟨⟨0⟩⟩

structure NFmt (F : Type) where
  pack : Array F → UInt64
  unpack : UInt64 → Array F

/-- the normalised formats, by harness name, at any float implementation -/
def nfmt (F : Type) [FOps F] [Inhabited F] (name : String) : Option (NFmt F) :=
  match name with
  | "Unorm2x16" => some ⟨fun v => (packUnorm2x16 v[0]! v[1]!).toUInt64,
      fun w => #[unpackUnorm2x16_x w.toUInt32, unpackUnorm2x16_y w.toUInt32]⟩
  | "Snorm2x16" => some ⟨fun v => (packSnorm2x16 v[0]! v[1]!).toUInt64,
      fun w => #[unpackSnorm2x16_x w.toUInt32, unpackSnorm2x16_y w.toUInt32]⟩
  | "Unorm4x8" => some ⟨fun v => (packUnorm4x8 v[0]! v[1]! v[2]! v[3]!).toUInt64,
      fun w => #[unpackUnorm4x8_x w.toUInt32, unpackUnorm4x8_y w.toUInt32, unpackUnorm4x8_z w.toUInt32, unpackUnorm4x8_w w.toUInt32]⟩
  | "Snorm4x8" => some ⟨fun v => (packSnorm4x8 v[0]! v[1]! v[2]! v[3]!).toUInt64,
      fun w => #[unpackSnorm4x8_x w.toUInt32, unpackSnorm4x8_y w.toUInt32, unpackSnorm4x8_z w.toUInt32, unpackSnorm4x8_w w.toUInt32]⟩
  | "Unorm1x8" => some ⟨fun v => (packUnorm1x8 v[0]!).toUInt64, fun w => #[unpackUnorm1x8 w.toUInt8]⟩
  | "Unorm2x8" => some ⟨fun v => (packUnorm2x8 v[0]! v[1]!).toUInt64,
      fun w => #[unpackUnorm2x8_x w.toUInt16, unpackUnorm2x8_y w.toUInt16]⟩
  | "Snorm1x8" => some ⟨fun v => (packSnorm1x8 v[0]!).toUInt64, fun w => #[unpackSnorm1x8 w.toUInt8]⟩
  | "Snorm2x8" => some ⟨fun v => (packSnorm2x8 v[0]! v[1]!).toUInt64,
      fun w => #[unpackSnorm2x8_x w.toUInt16, unpackSnorm2x8_y w.toUInt16]⟩
  | "Unorm1x16" => some ⟨fun v => (packUnorm1x16 v[0]!).toUInt64, fun w => #[unpackUnorm1x16 w.toUInt16]⟩
  | "Unorm4x16" => some ⟨fun v => packUnorm4x16 v[0]! v[1]! v[2]! v[3]!,
      fun w => #[unpackUnorm4x16_x w, unpackUnorm4x16_y w, unpackUnorm4x16_z w, unpackUnorm4x16_w w]⟩
  | "Snorm1x16" => some ⟨fun v => (packSnorm1x16 v[0]!).toUInt64, fun w => #[unpackSnorm1x16 w.toUInt16]⟩
  | "Snorm4x16" => some ⟨fun v => packSnorm4x16 v[0]! v[1]! v[2]! v[3]!,
      fun w => #[unpackSnorm4x16_x w, unpackSnorm4x16_y w, unpackSnorm4x16_z w, unpackSnorm4x16_w w]⟩
  | "Snorm3x10_1x2" => some ⟨fun v => (packSnorm3x10_1x2 v[0]! v[1]! v[2]! v[3]!).toUInt64,
      fun w => #[unpackSnorm3x10_1x2_x w.toUInt32, unpackSnorm3x10_1x2_y w.toUInt32, unpackSnorm3x10_1x2_z w.toUInt32, unpackSnorm3x10_1x2_w w.toUInt32]⟩
  | "Unorm3x10_1x2" => some ⟨fun v => (packUnorm3x10_1x2 v[0]! v[1]! v[2]! v[3]!).toUInt64,
      fun w => #[unpackUnorm3x10_1x2_x w.toUInt32, unpackUnorm3x10_1x2_y w.toUInt32, unpackUnorm3x10_1x2_z w.toUInt32, unpackUnorm3x10_1x2_w w.toUInt32]⟩
  | "Unorm2x4" => some ⟨fun v => (packUnorm2x4 v[0]! v[1]!).toUInt64,
      fun w => #[unpackUnorm2x4_x w.toUInt8, unpackUnorm2x4_y w.toUInt8]⟩
  | "Unorm4x4" => some ⟨fun v => (packUnorm4x4 v[0]! v[1]! v[2]! v[3]!).toUInt64,
      fun w => #[unpackUnorm4x4_x w.toUInt16, unpackUnorm4x4_y w.toUInt16, unpackUnorm4x4_z w.toUInt16, unpackUnorm4x4_w w.toUInt16]⟩
  | "Unorm1x5_1x6_1x5" => some ⟨fun v => (packUnorm1x5_1x6_1x5 v[0]! v[1]! v[2]!).toUInt64,
      fun w => #[unpackUnorm1x5_1x6_1x5_x w.toUInt16, unpackUnorm1x5_1x6_1x5_y w.toUInt16, unpackUnorm1x5_1x6_1x5_z w.toUInt16]⟩
  | "Unorm3x5_1x1" => some ⟨fun v => (packUnorm3x5_1x1 v[0]! v[1]! v[2]! v[3]!).toUInt64,
      fun w => #[unpackUnorm3x5_1x1_x w.toUInt16, unpackUnorm3x5_1x1_y w.toUInt16, unpackUnorm3x5_1x1_z w.toUInt16, unpackUnorm3x5_1x1_w w.toUInt16]⟩
  | "Unorm2x3_1x2" => some ⟨fun v => (packUnorm2x3_1x2 v[0]! v[1]! v[2]!).toUInt64,
      fun w => #[unpackUnorm2x3_1x2_x w.toUInt8, unpackUnorm2x3_1x2_y w.toUInt8, unpackUnorm2x3_1x2_z w.toUInt8]⟩
  | "tUnorm8" => some ⟨fun v => (tPackUnorm8 v[0]!).toUInt64, fun w => #[tUnpackUnorm8 w.toUInt8]⟩
  | "tUnorm16" => some ⟨fun v => (tPackUnorm16 v[0]!).toUInt64, fun w => #[tUnpackUnorm16 w.toUInt16]⟩
  | "tSnorm8" => some ⟨fun v => (tPackSnorm8 v[0]!).toUInt8.toUInt64, fun w => #[tUnpackSnorm8 w.toUInt8.toInt8]⟩
  | "tSnorm16" => some ⟨fun v => (tPackSnorm16 v[0]!).toUInt16.toUInt64, fun w => #[tUnpackSnorm16 w.toUInt16.toInt16]⟩
  | "tUnorm32f" => some ⟨fun v => (tPackUnorm32 v[0]!).toUInt64, fun _ => #[]⟩
  | "tSnorm32f" => some ⟨fun v => (tPackSnorm32 v[0]!).toUInt32.toUInt64, fun _ => #[]⟩
  | _ => none

structure FieldSpec where
  off : Nat
  width : Nat
  signed : Bool
  n : Nat

/-- the documented layout and scale of each format (independent of the model) -/
def fieldsOf (name : String) : List FieldSpec :=
  let u (o w n : Nat) : FieldSpec := ⟨o, w, false, n⟩
  let s (o w n : Nat) : FieldSpec := ⟨o, w, true, n⟩
  match name with
  | "Unorm2x16" => [u 0 16 65535, u 16 16 65535]
  | "Snorm2x16" => [s 0 16 32767, s 16 16 32767]
  | "Unorm4x8" => [u 0 8 255, u 8 8 255, u 16 8 255, u 24 8 255]
  | "Snorm4x8" => [s 0 8 127, s 8 8 127, s 16 8 127, s 24 8 127]
  | "Unorm1x8" => [u 0 8 255]
  | "Unorm2x8" => [u 0 8 255, u 8 8 255]
  | "Snorm1x8" => [s 0 8 127]
  | "Snorm2x8" => [s 0 8 127, s 8 8 127]
  | "Unorm1x16" => [u 0 16 65535]
  | "Unorm4x16" => [u 0 16 65535, u 16 16 65535, u 32 16 65535, u 48 16 65535]
  | "Snorm1x16" => [s 0 16 32767]
  | "Snorm4x16" => [s 0 16 32767, s 16 16 32767, s 32 16 32767, s 48 16 32767]
  | "Snorm3x10_1x2" => [s 0 10 511, s 10 10 511, s 20 10 511, s 30 2 1]
  | "Unorm3x10_1x2" => [u 0 10 1023, u 10 10 1023, u 20 10 1023, u 30 2 3]
  | "Unorm2x4" => [u 0 4 15, u 4 4 15]
  | "Unorm4x4" => [u 0 4 15, u 4 4 15, u 8 4 15, u 12 4 15]
  | "Unorm1x5_1x6_1x5" => [u 0 5 31, u 5 6 63, u 11 5 31]
  | "Unorm3x5_1x1" => [u 0 5 31, u 5 5 31, u 10 5 31, u 15 1 1]
  | "Unorm2x3_1x2" => [u 0 3 7, u 3 3 7, u 6 2 3]
  | "tUnorm8" => [u 0 8 255]
  | "tUnorm16" => [u 0 16 65535]
  | "tSnorm8" => [s 0 8 127]
  | "tSnorm16" => [s 0 16 32767]
  | "tUnorm32f" => [u 0 32 4294967295]
  | "tSnorm32f" => [s 0 32 2147483647]
  | _ => []

def isNaNBits (b : Nat) : Bool := b % 2147483648 > 2139095040
def sameF (a b : Nat) : Bool := a == b || (isNaNBits a && isNaNBits b)

structure St where
  lines : Nat := 0
  mism : Nat := 0
  soft : Nat := 0
  spec : Nat := 0
  nontriv : Nat := 0
  unknown : Nat := 0
  seen : Std.HashSet UInt64 := {}
  perOp : Std.HashMap String Nat := {}

initialize repCount : IO.Ref (Std.HashMap String Nat) ← IO.mkRef {}

/-- print at most 6 messages per (tag, kind, format), so that a frequent (e.g. known) violation of one
function never hides a different one -/
def report (tag : String) (_cnt : Nat) (line msg : String) : IO Unit := do
  let ws := line.splitOn " "
  let key := tag ++ " " ++ ws[0]! ++ " " ++ ws[1]!
  let m ← repCount.get
  let c := m.getD key 0
  repCount.set (m.insert key (c + 1))
  if c < 6 then IO.println s!"{tag} {line} | {msg}"

/-- canonical re-pack of a word of a normalised format: most negative signed codes ↦ -N -/
def canonWord (fs : List FieldSpec) (w : Nat) : Nat :=
  fs.foldl (fun acc f =>
    if f.signed && Spec.field w f.off f.width == 2^(f.width-1) then
      acc - 2^(f.width-1) * 2^f.off + (2^(f.width-1) + 1) * 2^f.off
    else acc) w

def natsOf (l : List String) : Array Nat := (l.map String.toNat!).toArray

/-- exact double check helper for the sweep: |code - t| ≤ 1/2 + slack, t exact in binary64 -/
def nearD (code : Float) (t : Float) (slack : Float) : Bool := Float.abs (code - t) ≤ 0.5 + slack

def f32 (b : Nat) : Float32 := Float32.ofBits (UInt32.ofNat b)

def processLine (st : St) (line : String) : IO St := do
  let parts := line.splitOn " -> "
  if parts.length != 2 then return { st with unknown := st.unknown + 1 }
  let lhs := (parts[0]!).splitOn " "
  let kind := lhs[0]!
  let name := lhs[1]!
  let args := natsOf (lhs.drop 2)
  let res := natsOf ((parts[1]!).splitOn " ")
  let mut st := { st with lines := st.lines + 1 }
  -- distinct non-trivial: result neither zero nor the (first) input
  if res.size > 0 && res[0]! != 0 && (args.size == 0 || res[0]! != args[0]!) then
    let h := hash line
    if !st.seen.contains h then st := { st with seen := st.seen.insert h, nontriv := st.nontriv + 1 }
  let fs := fieldsOf name
  match nfmt Float32 name, nfmt SF name with
  | some mN, some mS =>
    if kind == "u" then
      let w := UInt64.ofNat args[0]!
      let rn := (mN.unpack w).map (fun x => x.toBits.toNat)
      let rs := (mS.unpack w).map (fun x => x.bits)
      if rn != res then report "MISMATCH" st.mism line s!"model {rn}"; st := { st with mism := st.mism + 1 }
      if rs != rn then report "SOFTDIFF" st.soft line s!"soft {rs} native {rn}"; st := { st with soft := st.soft + 1 }
      let mut k := 0
      for f in fs do
        let ok := if f.signed then Spec.snormDecodeOk res[k]! (Spec.sfield args[0]! f.off f.width) f.n
                  else Spec.unormDecodeOk res[k]! (Spec.field args[0]! f.off f.width) f.n
        if !ok then report "SPECVIOL" st.spec line s!"component {k} is not code/N"; st := { st with spec := st.spec + 1 }
        k := k + 1
    else if kind == "r" then
      let w := UInt64.ofNat args[0]!
      let qn := (mN.pack (mN.unpack w)).toNat
      let qs := (mS.pack (mS.unpack w)).toNat
      if qn != res[0]! then report "MISMATCH" st.mism line s!"model {qn}"; st := { st with mism := st.mism + 1 }
      if qs != qn then report "SOFTDIFF" st.soft line s!"soft {qs} native {qn}"; st := { st with soft := st.soft + 1 }
      if res[0]! != canonWord fs args[0]! then
        report "SPECVIOL" st.spec line s!"pack(unpack(p)) is not the canonical p = {canonWord fs args[0]!}"; st := { st with spec := st.spec + 1 }
      if res[1]! != 1 then
        report "SPECVIOL" st.spec line "unpack(pack(unpack(p))) differs from unpack(p)"; st := { st with spec := st.spec + 1 }
    else if kind == "p" then
      let qn := (mN.pack (args.map f32)).toNat
      let qs := (mS.pack (args.map (fun b => (⟨b⟩ : SF)))).toNat
      if qn != res[0]! then report "MISMATCH" st.mism line s!"model {qn}"; st := { st with mism := st.mism + 1 }
      if qs != qn then report "SOFTDIFF" st.soft line s!"soft {qs} native {qn}"; st := { st with soft := st.soft + 1 }
      let mut k := 0
      for f in fs do
        let ok := if f.signed then Spec.snormEncodeOk args[k]! (Spec.sfield res[0]! f.off f.width) f.n
                  else Spec.unormEncodeOk args[k]! (Spec.field res[0]! f.off f.width) f.n
        if !ok then report "SPECVIOL" st.spec line s!"field {k} is not the nearest code of component {k}"; st := { st with spec := st.spec + 1 }
        k := k + 1
      if res[0]! ≥ 2^(fs.foldl (fun a f => max a (f.off + f.width)) 0) then
        report "SPECVIOL" st.spec line "bits set outside the documented fields"; st := { st with spec := st.spec + 1 }
    else st := { st with unknown := st.unknown + 1 }
    return st
  | _, _ => pure ()
  -- ---------------------------------------------------------------- half packs (layout only)
  if name == "Half1x16" || name == "Half2x16" || name == "Half4x16" || name == "Halfv3" then
    let n := if name == "Half1x16" then 1 else if name == "Half2x16" then 2 else if name == "Halfv3" then 3 else 4
    if kind == "u" then
      -- res: n floats then n per-lane conversions of glm's toFloat32
      let lane (k : Nat) := Spec.field args[0]! (16*k) 16
      let cvt : UInt16 → UInt32 := fun h => Id.run do
        let mut r : UInt32 := 0
        for k in [0:n] do
          if lane k == h.toNat then r := UInt32.ofNat res[n + k]!
        return r
      let model : Array Nat :=
        if n == 1 then #[(unpackHalf1x16 cvt (UInt16.ofNat args[0]!)).toNat]
        else if n == 2 then #[(unpackHalf2x16_x cvt (UInt32.ofNat args[0]!)).toNat, (unpackHalf2x16_y cvt (UInt32.ofNat args[0]!)).toNat]
        else let w := UInt64.ofNat args[0]!
             #[(unpackHalf4x16_x cvt w).toNat, (unpackHalf4x16_y cvt w).toNat, (unpackHalf4x16_z cvt w).toNat, (unpackHalf4x16_w cvt w).toNat]
      for k in [0:n] do
        if model[k]! != res[k]! then report "MISMATCH" st.mism line s!"model {model}"; st := { st with mism := st.mism + 1 }
        if res[k]! != res[n + k]! then
          report "SPECVIOL" st.spec line s!"component {k} is not the conversion of bits {16*k}..{16*k+15}"; st := { st with spec := st.spec + 1 }
    else if kind == "p" then
      -- args: n float patterns; res: word (or n lanes for Halfv3) then n per-component conversions
      let nres := if name == "Halfv3" then 3 else 1
      let cvt : UInt32 → UInt16 := fun x => Id.run do
        let mut r : UInt16 := 0
        for k in [0:n] do
          if args[k]! == x.toNat then r := UInt16.ofNat res[nres + k]!
        return r
      if name != "Halfv3" then
        let a (k : Nat) := UInt32.ofNat args[k]!
        let model : Nat :=
          if n == 1 then (packHalf1x16 cvt (a 0)).toNat
          else if n == 2 then (packHalf2x16 cvt (a 0) (a 1)).toNat
          else (packHalf4x16 cvt (a 0) (a 1) (a 2) (a 3)).toNat
        if model != res[0]! then report "MISMATCH" st.mism line s!"model {model}"; st := { st with mism := st.mism + 1 }
        for k in [0:n] do
          if Spec.field res[0]! (16*k) 16 != res[1 + k]! then
            report "SPECVIOL" st.spec line s!"bits {16*k}..{16*k+15} are not the half of component {k}"; st := { st with spec := st.spec + 1 }
        if res[0]! ≥ 2^(16*n) then report "SPECVIOL" st.spec line "bits set outside the lanes"; st := { st with spec := st.spec + 1 }
      else
        for k in [0:3] do
          if res[k]! != res[3 + k]! then
            report "SPECVIOL" st.spec line s!"component {k} is not the half of component {k}"; st := { st with spec := st.spec + 1 }
    else if kind == "r" then
      if res[0]! != args[0]! then report "SPECVIOL" st.spec line "pack(unpack(p)) ≠ p"; st := { st with spec := st.spec + 1 }
      if res[1]! != 1 then report "SPECVIOL" st.spec line "unpack(pack(unpack(p))) ≠ unpack(p)"; st := { st with spec := st.spec + 1 }
    return st
  -- ---------------------------------------------------------------- small floats
  if name == "F2x11_1x10" then
    if kind == "u" then
      let v := UInt32.ofNat args[0]!
      let model := #[(unpackF2x11_1x10_x v).toNat, (unpackF2x11_1x10_y v).toNat, (unpackF2x11_1x10_z v).toNat]
      let spec := #[Spec.smallFloatBits (Spec.field args[0]! 0 11) 6, Spec.smallFloatBits (Spec.field args[0]! 11 11) 6,
                    Spec.smallFloatBits (Spec.field args[0]! 22 10) 5]
      for k in [0:3] do
        if !sameF model[k]! res[k]! then report "MISMATCH" st.mism line s!"model {model}"; st := { st with mism := st.mism + 1 }
        if !sameF spec[k]! res[k]! then
          report "SPECVIOL" st.spec line s!"component {k} is not the value of its code ({spec[k]!})"; st := { st with spec := st.spec + 1 }
    else if kind == "p" then
      let model := (packF2x11_1x10 (UInt32.ofNat args[0]!) (UInt32.ofNat args[1]!) (UInt32.ofNat args[2]!)).toNat
      if model != res[0]! then report "MISMATCH" st.mism line s!"model {model}"; st := { st with mism := st.mism + 1 }
      let spec := #[Spec.smallFloatEncode args[0]! 6, Spec.smallFloatEncode args[1]! 6, Spec.smallFloatEncode args[2]! 5]
      let got := #[Spec.field res[0]! 0 11, Spec.field res[0]! 11 11, Spec.field res[0]! 22 10]
      for k in [0:3] do
        if spec[k]! != got[k]! then
          report "SPECVIOL" st.spec line s!"field {k} is {got[k]!}, the format's code of component {k} is {spec[k]!}"; st := { st with spec := st.spec + 1 }
    else if kind == "r" then
      let v := UInt32.ofNat args[0]!
      let model := (packF2x11_1x10 (unpackF2x11_1x10_x v) (unpackF2x11_1x10_y v) (unpackF2x11_1x10_z v)).toNat
      if model != res[0]! then report "MISMATCH" st.mism line s!"model {model}"; st := { st with mism := st.mism + 1 }
      let canonF (c mb : Nat) : Nat := if c / 2^mb == 31 && c % 2^mb != 0 then 2^(mb+5) - 1 else c
      let want := canonF (Spec.field args[0]! 0 11) 6 + canonF (Spec.field args[0]! 11 11) 6 * 2^11 + canonF (Spec.field args[0]! 22 10) 5 * 2^22
      if res[0]! != want then report "SPECVIOL" st.spec line s!"pack(unpack(p)) is not the canonical p = {want}"; st := { st with spec := st.spec + 1 }
      if res[1]! != 1 then
        -- NaN components compare unequal bitwise only if the payload changed; the harness compares bits
        report "SPECVIOL" st.spec line "unpack(pack(unpack(p))) differs from unpack(p)"; st := { st with spec := st.spec + 1 }
    return st
  if name == "F3x9_E1x5" then
    if kind == "u" then
      let v := UInt32.ofNat args[0]!
      let model := #[(Native.unpackF3x9_E1x5_x v).toBits.toNat, (Native.unpackF3x9_E1x5_y v).toBits.toNat, (Native.unpackF3x9_E1x5_z v).toBits.toNat]
      let e := Spec.field args[0]! 27 5
      let spec := #[Spec.f3x9Decode (Spec.field args[0]! 0 9) e, Spec.f3x9Decode (Spec.field args[0]! 9 9) e, Spec.f3x9Decode (Spec.field args[0]! 18 9) e]
      for k in [0:3] do
        if model[k]! != res[k]! then report "MISMATCH" st.mism line s!"model {model}"; st := { st with mism := st.mism + 1 }
        if spec[k]! != res[k]! then
          report "SPECVIOL" st.spec line s!"component {k} is not field·2^(e-24) = {spec[k]!}"; st := { st with spec := st.spec + 1 }
    else if kind == "p" then
      let x := f32 args[0]!; let y := f32 args[1]!; let z := f32 args[2]!
      let model := (Native.packF3x9_E1x5 x y z).toNat
      let anyNaN := isNaNBits args[0]! || isNaNBits args[1]! || isNaNBits args[2]!
      if !anyNaN then
        if model != res[0]! then report "MISMATCH" st.mism line s!"model {model}"; st := { st with mism := st.mism + 1 }
        -- spec: with w the exponent field glm produced, every component decodes to within half a mantissa step
        -- 2^(w-24) (plus 2^-15 of a step for the binary32 rounding of `c/step + 0.5`) of clamp(x, 0, 65408), well
        -- inside the "one mantissa step" of the property; and the word is normalised: the largest field is
        -- ≥ 256 unless w = 0 (so the step is the smallest the format allows for that vector)
        let cl (b : Nat) : Float := let v := (f32 b).toFloat; if v < 0.0 then 0.0 else if v > 65408.0 then 65408.0 else v
        let w := Spec.field res[0]! 27 5
        let step := Float.exp2 (w.toFloat - 24.0)
        let mut mx := 0
        for k in [0:3] do
          let fk := Spec.field res[0]! (9*k) 9
          if fk > mx then mx := fk
          let d := (f32 (Spec.f3x9Decode fk w)).toFloat
          if !(Float.abs (d - cl args[k]!) ≤ step * (0.5 + Float.exp2 (-15.0))) then
            report "SPECVIOL" st.spec line s!"component {k} decodes to {d}, more than half a mantissa step ({step}) from {cl args[k]!}"; st := { st with spec := st.spec + 1 }
        if mx < 256 && w != 0 then
          report "SPECVIOL" st.spec line s!"not normalised: largest field {mx} < 256 with exponent {w} > 0"; st := { st with spec := st.spec + 1 }
    else if kind == "r" then
      if res[1]! != 1 then
        report "SPECVIOL" st.spec line "unpack(pack(unpack(p))) differs from unpack(p)"; st := { st with spec := st.spec + 1 }
    return st
  if name == "RGBM" then
    if kind == "p" then
      let r := f32 args[0]!; let g := f32 args[1]!; let b := f32 args[2]!
      let a := Native.rgbmAlpha r g b
      let model := #[(Native.packRGBM_c r r g b).toBits.toNat, (Native.packRGBM_c g r g b).toBits.toNat, (Native.packRGBM_c b r g b).toBits.toNat, a.toBits.toNat]
      if model != res then report "MISMATCH" st.mism line s!"model {model}"; st := { st with mism := st.mism + 1 }
      -- spec: decoding (x·w·6) returns the colour to within 2^-20 relative, alpha ∈ (0, 1]
      let w := (f32 res[3]!).toFloat
      if !(w > 0.0 && w ≤ 1.0) then report "SPECVIOL" st.spec line "alpha outside (0,1]"; st := { st with spec := st.spec + 1 }
      if args[0]! ≤ 0x40c00000 && args[1]! ≤ 0x40c00000 && args[2]! ≤ 0x40c00000 then
        for k in [0:3] do
          let c := (f32 args[k]!).toFloat
          let d := (f32 res[k]!).toFloat * w * 6.0
          if !(Float.abs (d - c) ≤ c * Float.exp2 (-20.0) + 1.0e-12) then
            report "SPECVIOL" st.spec line s!"component {k} decodes to {d}, not {c}"; st := { st with spec := st.spec + 1 }
    else if kind == "u" then
      let model := #[(Native.unpackRGBM_c (f32 args[0]!) (f32 args[3]!)).toBits.toNat, (Native.unpackRGBM_c (f32 args[1]!) (f32 args[3]!)).toBits.toNat,
                     (Native.unpackRGBM_c (f32 args[2]!) (f32 args[3]!)).toBits.toNat]
      if model != res then report "MISMATCH" st.mism line s!"model {model}"; st := { st with mism := st.mism + 1 }
    return st
  -- ---------------------------------------------------------------- integer packs
  let intFmt : Option (Nat × Nat) := match name with      -- (lane width, lane count)
    | "Int2x8" | "Uint2x8" => some (8, 2) | "Int4x8" | "Uint4x8" => some (8, 4)
    | "Int2x16" | "Uint2x16" => some (16, 2) | "Int4x16" | "Uint4x16" => some (16, 4)
    | "Int2x32" | "Uint2x32" | "Double2x32" => some (32, 2) | _ => none
  match intFmt with
  | some (lw, n) =>
    if kind == "pi" then
      let a8 (k : Nat) := UInt8.ofNat args[k]!
      let a16 (k : Nat) := UInt16.ofNat args[k]!
      let a32 (k : Nat) := UInt32.ofNat args[k]!
      let model : Nat := match name with
        | "Int2x8" => (packInt2x8 (a8 0).toInt8 (a8 1).toInt8).toUInt16.toNat
        | "Uint2x8" => (packUint2x8 (a8 0) (a8 1)).toNat
        | "Int4x8" => (packInt4x8 (a8 0).toInt8 (a8 1).toInt8 (a8 2).toInt8 (a8 3).toInt8).toUInt32.toNat
        | "Uint4x8" => (packUint4x8 (a8 0) (a8 1) (a8 2) (a8 3)).toNat
        | "Int2x16" => (packInt2x16 (a16 0).toInt16 (a16 1).toInt16).toUInt32.toNat
        | "Uint2x16" => (packUint2x16 (a16 0) (a16 1)).toNat
        | "Int4x16" => (packInt4x16 (a16 0).toInt16 (a16 1).toInt16 (a16 2).toInt16 (a16 3).toInt16).toUInt64.toNat
        | "Uint4x16" => (packUint4x16 (a16 0) (a16 1) (a16 2) (a16 3)).toNat
        | "Int2x32" => (packInt2x32 (a32 0).toInt32 (a32 1).toInt32).toUInt64.toNat
        | "Uint2x32" => (packUint2x32 (a32 0) (a32 1)).toNat
        | _ => (packDouble2x32 (a32 0) (a32 1)).toNat
      if model != res[0]! then report "MISMATCH" st.mism line s!"model {model}"; st := { st with mism := st.mism + 1 }
      let spec := (List.range n).foldl (fun acc k => acc + args[k]! * 2^(lw*k)) 0
      if spec != res[0]! then report "SPECVIOL" st.spec line s!"word is not Σ lane_k·2^({lw}k) = {spec}"; st := { st with spec := st.spec + 1 }
    else if kind == "ui" then
      let w := args[0]!
      let model : Array Nat := match name with
        | "Int2x8" => let p := (UInt16.ofNat w).toInt16; #[(unpackInt2x8_x p).toUInt8.toNat, (unpackInt2x8_y p).toUInt8.toNat]
        | "Uint2x8" => let p := UInt16.ofNat w; #[(unpackUint2x8_x p).toNat, (unpackUint2x8_y p).toNat]
        | "Int4x8" => let p := (UInt32.ofNat w).toInt32; #[(unpackInt4x8_x p).toUInt8.toNat, (unpackInt4x8_y p).toUInt8.toNat, (unpackInt4x8_z p).toUInt8.toNat, (unpackInt4x8_w p).toUInt8.toNat]
        | "Uint4x8" => let p := UInt32.ofNat w; #[(unpackUint4x8_x p).toNat, (unpackUint4x8_y p).toNat, (unpackUint4x8_z p).toNat, (unpackUint4x8_w p).toNat]
        | "Int2x16" => let p := (UInt32.ofNat w).toInt32; #[(unpackInt2x16_x p).toUInt16.toNat, (unpackInt2x16_y p).toUInt16.toNat]
        | "Uint2x16" => let p := UInt32.ofNat w; #[(unpackUint2x16_x p).toNat, (unpackUint2x16_y p).toNat]
        | "Int4x16" => let p := (UInt64.ofNat w).toInt64; #[(unpackInt4x16_x p).toUInt16.toNat, (unpackInt4x16_y p).toUInt16.toNat, (unpackInt4x16_z p).toUInt16.toNat, (unpackInt4x16_w p).toUInt16.toNat]
        | "Uint4x16" => let p := UInt64.ofNat w; #[(unpackUint4x16_x p).toNat, (unpackUint4x16_y p).toNat, (unpackUint4x16_z p).toNat, (unpackUint4x16_w p).toNat]
        | "Int2x32" => let p := (UInt64.ofNat w).toInt64; #[(unpackInt2x32_x p).toUInt32.toNat, (unpackInt2x32_y p).toUInt32.toNat]
        | "Uint2x32" => let p := UInt64.ofNat w; #[(unpackUint2x32_x p).toNat, (unpackUint2x32_y p).toNat]
        | _ => let p := UInt64.ofNat w; #[(unpackDouble2x32_x p).toNat, (unpackDouble2x32_y p).toNat]
      if model != res then report "MISMATCH" st.mism line s!"model {model}"; st := { st with mism := st.mism + 1 }
      for k in [0:n] do
        if Spec.field w (lw*k) lw != res[k]! then
          report "SPECVIOL" st.spec line s!"lane {k} is not bits {lw*k}..{lw*k+lw-1}"; st := { st with spec := st.spec + 1 }
    else if kind == "ri" then
      if res[0]! != args[0]! then report "SPECVIOL" st.spec line "pack(unpack(p)) ≠ p"; st := { st with spec := st.spec + 1 }
    return st
  | none => pure ()
  if name == "I3x10_1x2" || name == "U3x10_1x2" then
    let sgn := name == "I3x10_1x2"
    let offs := #[0, 10, 20, 30]; let wid := #[10, 10, 10, 2]
    if kind == "pi" then
      let a (k : Nat) := UInt32.ofNat args[k]!
      let model := if sgn then (packI3x10_1x2 (a 0).toInt32 (a 1).toInt32 (a 2).toInt32 (a 3).toInt32).toNat
                   else (packU3x10_1x2 (a 0) (a 1) (a 2) (a 3)).toNat
      if model != res[0]! then report "MISMATCH" st.mism line s!"model {model}"; st := { st with mism := st.mism + 1 }
      for k in [0:4] do
        if Spec.field res[0]! offs[k]! wid[k]! != args[k]! % 2^wid[k]! then
          report "SPECVIOL" st.spec line s!"field {k} is not component {k} modulo 2^{wid[k]!}"; st := { st with spec := st.spec + 1 }
    else if kind == "ui" then
      let v := UInt32.ofNat args[0]!
      let model : Array Nat := if sgn then #[(unpackI3x10_1x2_x v).toUInt32.toNat, (unpackI3x10_1x2_y v).toUInt32.toNat, (unpackI3x10_1x2_z v).toUInt32.toNat, (unpackI3x10_1x2_w v).toUInt32.toNat]
                   else #[(unpackU3x10_1x2_x v).toNat, (unpackU3x10_1x2_y v).toNat, (unpackU3x10_1x2_z v).toNat, (unpackU3x10_1x2_w v).toNat]
      if model != res then report "MISMATCH" st.mism line s!"model {model}"; st := { st with mism := st.mism + 1 }
      for k in [0:4] do
        let want : Nat := if sgn then (Spec.sfield args[0]! offs[k]! wid[k]! % 4294967296).toNat else Spec.field args[0]! offs[k]! wid[k]!
        if want != res[k]! then
          report "SPECVIOL" st.spec line s!"component {k} is not field {k} ({want})"; st := { st with spec := st.spec + 1 }
    else if kind == "ri" then
      if res[0]! != args[0]! then report "SPECVIOL" st.spec line "pack(unpack(p)) ≠ p"; st := { st with spec := st.spec + 1 }
    return st
  return { st with unknown := st.unknown + 1 }

partial def loop (h : IO.FS.Handle) (st : St) : IO St := do
  let l ← h.getLine
  if l.isEmpty then return st
  let l := (l.splitOn "\n")[0]!
  if l.isEmpty then loop h st
  else
    let st ← processLine st l
    loop h st

def fold (h r : UInt64) : UInt64 := (h ^^^ r) * 0x100000001b3

/-- one block of 2^20 consecutive float bit patterns through a scalar pack (model at `Float32`);
also checks the specification on the model's result: nearest code (exact in binary64) and
monotonicity in the value of the input -/
def sweepBlock (op : String) (blk : Nat) : IO Unit := do
  let n : Float := match op with
    | "packUnorm1x8" => 255.0 | "packSnorm1x8" => 127.0 | "packUnorm1x16" => 65535.0 | _ => 32767.0
  let signed := op == "packSnorm1x8" || op == "packSnorm1x16"
  let is8 := op == "packUnorm1x8" || op == "packSnorm1x8"
  let code (x : UInt32) : UInt64 :=
    let f := Float32.ofBits x
    match op with
    | "packUnorm1x8" => (packUnorm1x8 f).toUInt64
    | "packSnorm1x8" => (packSnorm1x8 f).toUInt64
    | "packUnorm1x16" => (packUnorm1x16 f).toUInt64
    | _ => (packSnorm1x16 f).toUInt64
  let sval (c : UInt64) : Float :=     -- signed value of the code
    if signed then (if is8 then (c.toUInt8.toInt8.toInt32.toFloat32.toFloat) else (c.toUInt16.toInt16.toInt32.toFloat32.toFloat)) else c.toFloat
  let mut h : UInt64 := 0xcbf29ce484222325
  let base : UInt32 := UInt32.ofNat (blk * 2^20)
  let negative := base ≥ 0x80000000
  let mut viol := 0
  -- previous value for monotonicity: the pattern before the block (same sign half)
  let mut prev : Float := if base == 0 || base == 0x80000000 then sval (code base) else sval (code (base - 1))
  for i in [0:2^20] do
    let x := base + UInt32.ofNat i
    let c := code x
    h := fold h c
    if (x &&& 0x7fffffff) ≤ 0x7f800000 then
      let v := (Float32.ofBits x).toFloat
      let lo : Float := if signed then -1.0 else 0.0
      let t := (if v < lo then lo else if v > 1.0 then 1.0 else v) * n
      let cv := sval c
      if !(nearD cv t (n * Float.exp2 (-23.0))) then
        if viol < 5 then IO.println s!"V {op} {x} {c} not-nearest"
        viol := viol + 1
      -- increasing patterns are increasing values for positive floats, decreasing for negative ones
      if (if negative then cv > prev else cv < prev) then
        if viol < 5 then IO.println s!"V {op} {x} {c} not-monotone"
        viol := viol + 1
      prev := cv
  IO.println s!"B {op} {blk} {h}"

def main (args : List String) : IO UInt32 := do
  match args with
  | ["lines", file] =>
    let h ← IO.FS.Handle.mk file IO.FS.Mode.read
    let st ← loop h {}
    IO.println s!"SUMMARY lines={st.lines} mismatches={st.mism} softdiff={st.soft} specviol={st.spec} nontrivial={st.nontriv} unknown={st.unknown}"
    return 0
  | ["sweep", op, lo, hi] =>
    for blk in [lo.toNat!:hi.toNat!] do sweepBlock op blk
    return 0
  | _ =>
    IO.eprintln "usage: drv_c06 lines <file> | drv_c06 sweep <op> <blockLo> <blockHi>"
    return 2
